import AcryoVerif.Py
import AcryoVerif.Gen.Pose
import AcryoVerif.Model.Wedge

/-!
Executable model of molecule poses (`acryo.molecules.Molecules`, one molecule): position `p` and
rotation matrix `R` acting on `(z, y, x)` vectors. How each method composes is read from the source:
`translate_internal` adds `R d` (`Gen.translateInternalUsesOwnRotation`), `rotate_by` composes on the
left (`Gen.rotateByComposesLeft`), `rotate_by_rotvec_internal v` rotates by the world rotation vector
`R v` (`Gen.rotateInternalConjugates`), which for a proper rotation `R` is the rotation `R Q Rᵀ`
(trusted identity of rotation vectors under conjugation), and `linear_transform` combines them in the
order and with the shift pre-processing found in the source (`Gen.ltTranslateFirst`,
`Gen.ltPreRotatesShift`).
-/
namespace Model

def V3.add (a b : V3) : V3 := ⟨a.z + b.z, a.y + b.y, a.x + b.x⟩
def V3.sub (a b : V3) : V3 := ⟨a.z - b.z, a.y - b.y, a.x - b.x⟩
def V3.smul (s : Rat) (a : V3) : V3 := ⟨s * a.z, s * a.y, s * a.x⟩

def M3.col (m : M3) (j : Nat) : V3 :=
  match j with
  | 0 => ⟨m.r0.z, m.r1.z, m.r2.z⟩
  | 1 => ⟨m.r0.y, m.r1.y, m.r2.y⟩
  | _ => ⟨m.r0.x, m.r1.x, m.r2.x⟩

def M3.mul (a b : M3) : M3 :=
  let row (r : V3) : V3 := ⟨r.dot (b.col 0), r.dot (b.col 1), r.dot (b.col 2)⟩
  ⟨row a.r0, row a.r1, row a.r2⟩

def M3.one : M3 := ⟨⟨1, 0, 0⟩, ⟨0, 1, 0⟩, ⟨0, 0, 1⟩⟩

structure Pose where
  p : V3
  R : M3
  deriving Repr

namespace Pose

def translate (m : Pose) (d : V3) : Pose := { m with p := m.p.add d }
def translateInternal (m : Pose) (d : V3) : Pose := m.translate (m.R.apply d)
def rotateBy (m : Pose) (W : M3) : Pose := { m with R := W.mul m.R }
/-- `rotate_by_rotvec_internal` for the rotation `Q` (matrix of the internal rotation vector). -/
def rotateInternal (m : Pose) (Q : M3) : Pose := m.rotateBy (m.R.mul (Q.mul m.R.transpose))

/-- `Molecules.linear_transform(shift, rotator)` (non-inverse branch) as written in the source. -/
def linearTransform (m : Pose) (shift : V3) (Q : M3) : Pose :=
  let s := if Gen.ltPreRotatesShift then Q.apply shift else shift
  if Gen.ltTranslateFirst then (m.translateInternal s).rotateInternal Q
  else (m.rotateInternal Q).translateInternal s

/-- `_post_align`: shifts are converted from pixels to nm by the loader scale. -/
def postAlign (scale : Rat) (m : Pose) (d : V3) (Q : M3) : Pose :=
  m.linearTransform ⟨Gen.postAlignShiftNm d.z scale, Gen.postAlignShiftNm d.y scale,
    Gen.postAlignShiftNm d.x scale⟩ Q

end Pose
end Model
