import AcryoVerif.Py
import AcryoVerif.Gen.Wedge

/-!
Model of the missing-wedge masks (`SingleAxis.create_mask`, `Backend.missing_wedge_mask`,
`_utils.missing_wedge_mask`): the integer frequency grid built by `get_indices` (offset and shift
direction are generated constants/kernels), the way the two plane normals are combined with the
inverse rotation and the box shape (generated constants), and the predicate (generated kernel).
Rotations enter as 3×3 rational matrices `R` (rows `r0 r1 r2`); `rotator.inv()` is `Rᵀ`.
-/
namespace Model

open Py

/-- position `i` of `np.fft.fftshift(a)` / `ifftshift(a)` for `a[j] = j - off`, length `n`. -/
def gridIdx (off : Int) (usesFftshift : Bool) (n i : Int) : Int :=
  (if usesFftshift then (i - n / 2) % n else (i + n / 2) % n) - off

/-- `np.fft.fftfreq(n) * n`: the FFT-ordered integer frequency of position `i`. -/
def freqIdx (n i : Int) : Int := if i < (n + 1) / 2 then i else i - n

structure V3 where
  z : Rat
  y : Rat
  x : Rat
  deriving Repr, DecidableEq

def V3.dot (a b : V3) : Rat := a.z * b.z + a.y * b.y + a.x * b.x
def V3.mul (a b : V3) : V3 := ⟨a.z * b.z, a.y * b.y, a.x * b.x⟩
def V3.div (a b : V3) : V3 := ⟨a.z / b.z, a.y / b.y, a.x / b.x⟩
def V3.neg (a : V3) : V3 := ⟨-a.z, -a.y, -a.x⟩

/-- A 3×3 matrix by rows. -/
structure M3 where
  r0 : V3
  r1 : V3
  r2 : V3
  deriving Repr

def M3.apply (m : M3) (v : V3) : V3 := ⟨m.r0.dot v, m.r1.dot v, m.r2.dot v⟩
def M3.transpose (m : M3) : M3 :=
  ⟨⟨m.r0.z, m.r1.z, m.r2.z⟩, ⟨m.r0.y, m.r1.y, m.r2.y⟩, ⟨m.r0.x, m.r1.x, m.r2.x⟩⟩

/-- The vector that is dotted with the integer index grid, as the code builds it from a plane
normal `n`, the rotation matrix `R` and the box shape `N`. -/
def effNormal (scaleBeforeRot scaleIsDiv : Bool) (R : M3) (N n : V3) : V3 :=
  let sc (v : V3) : V3 := if scaleIsDiv then v.div N else v.mul N
  if scaleBeforeRot then R.transpose.apply (sc n) else sc (R.transpose.apply n)

/-- One bin of the mask: index vector `v`, the two plane normals. -/
def maskBin (pred : Rat → Rat → Bool) (sb sd : Bool) (R : M3) (N n0 n1 v : V3) : Bool :=
  pred ((effNormal sb sd R N n0).dot v) ((effNormal sb sd R N n1).dot v)

def idxVec (off : Int → Int) (sh : Bool) (N : Int × Int × Int) (i : Int × Int × Int) : V3 :=
  ⟨(gridIdx (off N.1) sh N.1 i.1 : Int), (gridIdx (off N.2.1) sh N.2.1 i.2.1 : Int),
   (gridIdx (off N.2.2) sh N.2.2 i.2.2 : Int)⟩

def shapeVec (N : Int × Int × Int) : V3 := ⟨(N.1 : Int), (N.2.1 : Int), (N.2.2 : Int)⟩

/-- `SingleAxis.create_mask` at bin `i`. -/
def maskTilt (R : M3) (N : Int × Int × Int) (n0 n1 : V3) (i : Int × Int × Int) : Bool :=
  maskBin Gen.wedgePredicateTilt Gen.wedgeScaleBeforeRotTilt Gen.wedgeScaleIsDivTilt R (shapeVec N)
    n0 n1 (idxVec Gen.indicesOffsetTilt Gen.indicesUsesFftshiftTilt N i)

def maskBackend (R : M3) (N : Int × Int × Int) (n0 n1 : V3) (i : Int × Int × Int) : Bool :=
  maskBin Gen.wedgePredicateBackend Gen.wedgeScaleBeforeRotBackend Gen.wedgeScaleIsDivBackend R
    (shapeVec N) n0 n1 (idxVec Gen.indicesOffsetBackend Gen.indicesUsesFftshiftBackend N i)

def maskUtils (R : M3) (N : Int × Int × Int) (n0 n1 : V3) (i : Int × Int × Int) : Bool :=
  maskBin Gen.wedgePredicateUtils Gen.wedgeScaleBeforeRotUtils Gen.wedgeScaleIsDivUtils R
    (shapeVec N) n0 n1 (idxVec Gen.indicesOffsetUtils Gen.indicesUsesFftshiftUtils N i)

/-- The physical frequency vector of bin `i` (cycles per pixel). -/
def physFreq (N : Int × Int × Int) (i : Int × Int × Int) : V3 :=
  ⟨(freqIdx N.1 i.1 : Int) / (N.1 : Int), (freqIdx N.2.1 i.2.1 : Int) / (N.2.1 : Int),
   (freqIdx N.2.2 i.2.2 : Int) / (N.2.2 : Int)⟩

/-- The specification: the frequency vector, mapped into the tomogram frame by the orientation,
lies between the two planes. -/
def specBin (R : M3) (N : Int × Int × Int) (n0 n1 : V3) (i : Int × Int × Int) : Bool :=
  decide ((n0.dot (R.apply (physFreq N i))) * (n1.dot (R.apply (physFreq N i))) ≤ 0)

end Model
