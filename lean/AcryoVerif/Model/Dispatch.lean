import AcryoVerif.Py

/-! Dispatch of hand-written model operations for the line-protocol driver. -/
namespace Model

def dispatch (_name : String) (_a : Array Rat) : Option String := none

end Model
