import AcryoVerif.Py
import AcryoVerif.Model.Crop
import AcryoVerif.Model.Search
import AcryoVerif.Model.Wedge
import AcryoVerif.Model.Lowpass
import AcryoVerif.Gen.Align
import AcryoVerif.Model.Landscape
import AcryoVerif.Model.Split
import AcryoVerif.Model.Fsc
import AcryoVerif.Model.Bin
import AcryoVerif.Model.Table
import AcryoVerif.Model.Frame
import AcryoVerif.Model.Pose
import AcryoVerif.Model.Rigid
import AcryoVerif.Model.Loader
import AcryoVerif.Model.Cache
import AcryoVerif.Model.Pca
import AcryoVerif.Model.Pipe
import AcryoVerif.Model.Chunks
import AcryoVerif.Model.Sim
import AcryoVerif.Model.Load
import AcryoVerif.Model.Batch

/-! Dispatch of hand-written model operations for the line-protocol driver. -/
namespace Model

open Py

private def i (a : Array Rat) (k : Nat) : Int := (a[k]!).floor

/-- `prepAffine c0 c1 c2 s0 s1 s2 order N0 N1 N2` -/
def opPrepAffine (a : Array Rat) : PyM (List Int × List Rat) := do
  let mut lens : List Int := []
  let mut trs : List Rat := []
  for ax in [0, 1, 2] do
    let w ← cropAxis a[ax]! (i a (3 + ax)) (i a 6) (i a (7 + ax))
    let (l, t) := w.observe
    lens := lens ++ [l]
    trs := trs ++ [t]
  return (lens, trs)

/-- `prepAffineCS c0 c1 c2 maxLen s0 s1 s2 order N0 N1 N2` -/
def opPrepAffineCS (a : Array Rat) : PyM (List Int × List Rat) := do
  let mut lens : List Int := []
  let mut trs : List Rat := []
  for ax in [0, 1, 2] do
    let w ← cropAxisCS a[ax]! a[3]! (i a (4 + ax)) (i a 7) (i a (8 + ax))
    let (l, t) := w.observe
    lens := lens ++ [l]
    trs := trs ++ [t]
  return (lens, trs)

def flat (r : PyM (List Int × List Rat)) : String :=
  match r with
  | .ok (l, t) => " ".intercalate (l.map Canon.canon ++ t.map Canon.canon)
  | .error e => "err:" ++ toString e

/-- `wedge_* N0 N1 N2 R(9, row major) n0(3) n1(3)` → one character per bin in C order; bins whose
exact sign product is within `1e-6` of zero are printed as `x` (floating point decides them). -/
def opWedge (f : M3 → Int × Int × Int → V3 → V3 → Int × Int × Int → Bool)
    (sb sd : Bool) (off : Int → Int) (sh : Bool) (a : Array Rat) : String :=
  let N : Int × Int × Int := (i a 0, i a 1, i a 2)
  let R : M3 := ⟨⟨a[3]!, a[4]!, a[5]!⟩, ⟨a[6]!, a[7]!, a[8]!⟩, ⟨a[9]!, a[10]!, a[11]!⟩⟩
  let n0 : V3 := ⟨a[12]!, a[13]!, a[14]!⟩
  let n1 : V3 := ⟨a[15]!, a[16]!, a[17]!⟩
  Id.run do
    let mut s := ""
    for z in [0:N.1.toNat] do
      for y in [0:N.2.1.toNat] do
        for x in [0:N.2.2.toNat] do
          let idx : Int × Int × Int := ((z : Int), (y : Int), (x : Int))
          let v := idxVec off sh N idx
          let p := (effNormal sb sd R (shapeVec N) n0).dot v * (effNormal sb sd R (shapeVec N) n1).dot v
          let scale : Rat := if sd then 1 else ((N.1 * N.1 + N.2.1 * N.2.1 + N.2.2 * N.2.2 : Int) : Rat) ^ 2
          if Py.rabs p < scale / 1000000 then s := s ++ "x"
          else s := s ++ (if f R N n0 n1 idx then "1" else "0")
    return s

/-- `bw_* d0 d1 d2 cutoff order real` → `shape | weights` (C order). -/
def opBw (K : BwKernels) (a : Array Rat) : String :=
  let d : Int × Int × Int := (i a 0, i a 1, i a 2)
  let cutoff := a[3]!
  let order := i a 4
  let real := a[5]! ≠ 0
  let lastLen := if real then K.limit d.2.2 else K.axisLen d.2.2
  let (l0, l1) := (K.axisLen d.1, K.axisLen d.2.1)
  Id.run do
    let mut ws : List String := []
    for z in [0:l0.toNat] do
      for y in [0:l1.toNat] do
        for x in [0:lastLen.toNat] do
          ws := ws ++ [Canon.canon (K.weightAt d cutoff order ((z : Int), (y : Int), (x : Int)))]
    return s!"{l0} {l1} {lastLen} | " ++ " ".intercalate ws

def opLpShape (K : BwKernels) (a : Array Rat) : String :=
  Canon.canon (i a 0, i a 1, K.outLastLen (i a 2))

/-- `mesh maxima mid m w` → `lo hi firstNode`. -/
def opMesh (a : Array Rat) : String :=
  let (lo, hi) := Gen.meshBounds (i a 0) (i a 1) a[2]!
  Canon.canon (lo, hi, Gen.meshNode lo (i a 0) (i a 3))

/-- `pccCrop l r N` → original indices kept by `crop_by_max_shifts`, in output order. -/
def opPccCrop (a : Array Rat) : String :=
  let N := i a 2
  let (_, lo, hi) := Gen.pccCropBounds (i a 0) (i a 1) N
  let L := hi - lo
  let out : List Int := (List.range L.toNat).map fun (t : Nat) =>
    let k : Int := lo + ((t : Int) + L / 2) % L          -- ifftshift of the cropped window
    (k - N / 2) % N                                  -- fftshift of the full array
  Canon.canon out

/-- `znccShape m0 m1 m2` → sides of ncc_landscape and of the two cropped landscapes. -/
def opZnccShape (a : Array Rat) : String :=
  let full := [0, 1, 2].map fun k => 2 * Gen.paddingWidth a[k]! - 1
  let c1 := [0, 1, 2].map fun k => (2 * Gen.paddingWidth a[k]! - 1) - 2 * Gen.padWidthEff1 a[k]! (2 * Gen.paddingWidth a[k]! - 1)
  let c0 := [0, 1, 2].map fun k => (2 * Gen.paddingWidth a[k]! - 1) - 2 * Gen.padWidthEff0 a[k]! (2 * Gen.paddingWidth a[k]! - 1)
  " ".intercalate ((full ++ c1 ++ c0).map Canon.canon)

/-- `landscape zncc n0 n1 n2 m0 m1 m2 a... b...` → `num den2` per cropped landscape entry. -/
def opLandscape (a : Array Rat) : String :=
  let n0 := (i a 1).toNat; let n1 := (i a 2).toNat; let n2 := (i a 3).toNat
  let v := n0 * n1 * n2
  let img0 : Img := ⟨n0, n1, n2, a.extract 7 (7 + v)⟩
  let img1 : Img := ⟨n0, n1, n2, a.extract (7 + v) (7 + 2 * v)⟩
  let l := landscapeCropped (a[0]! ≠ 0) img0 img1 (a[4]!, a[5]!, a[6]!)
  " ".intercalate (l.map fun p => Canon.canon p.1 ++ " " ++ Canon.canon p.2)

/-- `score zncc n0 n1 n2 a... b...` → `num den2`. -/
def opScore (a : Array Rat) : String :=
  let n0 := (i a 1).toNat; let n1 := (i a 2).toNat; let n2 := (i a 3).toNat
  let v := n0 * n1 * n2
  let img0 : Img := ⟨n0, n1, n2, a.extract 4 (4 + v)⟩
  let img1 : Img := ⟨n0, n1, n2, a.extract (4 + v) (4 + 2 * v)⟩
  Canon.canon (scorePair (a[0]! ≠ 0) img0 img1)

/-- `split n draw...` → the two masks as bit strings. -/
def opSplit (a : Array Rat) : String :=
  let n := (i a 0).toNat
  let stream := (a.toList.drop 1).map fun q => q.floor.toNat
  let d := usedDraws n stream
  bits (mask0 n d) ++ " " ++ bits (mask1 n d)

/-- `fscLabels n0 n1 n2 dfreq` → `nboundary | label per bin (FFT order, C order)`. -/
def opFscLabels (a : Array Rat) : String :=
  let d : Int × Int × Int := (i a 0, i a 1, i a 2)
  let dfreq := a[3]!
  Id.run do
    let mut labs : List String := []
    let mut nb : Nat := 0
    for z in [0:d.1.toNat] do
      for y in [0:d.2.1.toNat] do
        for x in [0:d.2.2.toNat] do
          let (L, onb) := labelSq (radius2 d ((z : Int), (y : Int), (x : Int))) dfreq 4096
          labs := labs ++ [toString L]
          if onb then nb := nb + 1
    return s!"{nb} | " ++ " ".intercalate labs

/-- `bin b n0 n1 n2 data...` → `shape | data`. -/
def opBin (a : Array Rat) : String :=
  let n0 := (i a 1).toNat; let n1 := (i a 2).toNat; let n2 := (i a 3).toNat
  let img : Img := ⟨n0, n1, n2, a.extract 4 (4 + n0 * n1 * n2)⟩
  let o := binImage img (i a 0)
  s!"{o.n0} {o.n1} {o.n2} | " ++ " ".intercalate (o.data.toList.map Canon.canon)

/-- `avgsplit nvox n nset ndraws d… data(n·nvox)` → per set `840·half0 | 840·half1` (set-major) -/
def opAvgSplit (a : Array Rat) : String :=
  let nvox := (i a 0).toNat; let n := (i a 1).toNat; let nset := (i a 2).toNat; let nd := (i a 3).toNat
  let stream := (a.extract 4 (4 + nd)).toList.map fun r => r.floor.toNat
  let data := (a.extract (4 + nd) (4 + nd + n * nvox)).toList
  let stack := (List.range n).map fun k => (data.drop (k * nvox)).take nvox
  let shw (l : List Rat) := " ".intercalate (l.map fun x => Canon.canon (x * 840))
  " ; ".intercalate ((averageSplit nvox stack nset stream).map fun e => shw e.1 ++ " | " ++ shw e.2)

/-- `imgtab <encoded history>` (see `Model.parseOp`) → the observation after every operation -/
def opImgTab (a : Array Rat) : String :=
  let xs := a.toList.map (·.floor)
  match runObserve (xs.length + 1) Batch.empty xs [] with
  | some obs => " ; ".intercalate obs
  | none => "bad-arg"

/-- `binaxis k b₁ … b_k data...` → the axis after the history of binnings `b₁, …, b_k` (`Model.binHist`). -/
def opBinAxis (a : Array Rat) : String :=
  let k := (i a 0).toNat
  let bs := ((a.extract 1 (1 + k)).toList.map fun r => r.floor.toNat)
  let xs := (a.extract (1 + k) a.size).toList
  if bs.any (· == 0) then "bad-arg" else
  " ".intercalate ((binHist bs xs).map Canon.canon)

/-! `table n  op nargs args...  op nargs args...` : a history of table operations on the table
whose rows carry the tags `0..n-1` (position, orientation and features each hold the row tag). After
every operation the three containers are printed if they agree. -/
abbrev TTab := Tab Nat Nat Nat

def tabOfTags (l : List Nat) : TTab := ⟨l, l, l⟩

def showTab (t : TTab) : String :=
  if t.pos = t.rot ∧ t.rot = t.feat then "[" ++ ",".intercalate (t.pos.map toString) ++ "]"
  else "MISALIGNED"

def tagKey (mul modp : Int) (r : Nat × Nat × Nat) : Int := ((r.1 : Int) * mul) % modp

def showGroups (gs : List (Int × TTab)) : String :=
  "G " ++ " ".intercalate (gs.map fun g => toString g.1 ++ ":" ++ showTab g.2)

def bitsOf (len : Nat) (n : Nat) : List Bool := (List.range len).map fun k => (n >>> k) % 2 == 1

partial def runTable (t : TTab) (a : List Rat) (acc : List String) : List String :=
  match a with
  | [] => acc.reverse
  | op :: nargs :: rest =>
    let k := nargs.floor.toNat
    let args := (rest.take k).map (·.floor)
    let rest' := rest.drop k
    let natArg (j : Nat) : Nat := (args.getD j 0).toNat
    let intArg (j : Nat) : Int := args.getD j 0
    let ret (r : PyM TTab) : TTab × String :=
      match r with
      | .ok u => (u, showTab u)
      | .error e => (t, "err:" ++ toString e)
    let (t', out) : TTab × String :=
      match op.floor with
      | 1 => ret (t.subsetInt (intArg 0))
      | 2 => ret (pure (t.subsetSlice (intArg 0) (intArg 1)))
      | 3 => ret (t.subsetMask (bitsOf (natArg 0) (natArg 1)))
      | 4 => ret (pure (t.head (natArg 0)))
      | 5 => ret (pure (t.tail (natArg 0)))
      | 6 => ret (pure (t.filter fun r => ((r.1 : Int) % (intArg 0)) == intArg 1))
      | 7 => ret (pure (t.sort (tagKey (intArg 0) (intArg 1)) (intArg 2 != 0)))
      | 8 => ret (pure (t.concatWith (tabOfTags ((List.range (natArg 1)).map (· + natArg 0)))))
      | 9 => ret (pure (t.concatWith (tabOfTags ((List.range (natArg 1)).map (· + natArg 0)))))
      | 10 => (t, showGroups (t.groupBy fun r => (r.1 : Int) % (intArg 0)))
      | 11 => ret (t.subsetIdx (args.map (·.toNat)))
      | 13 =>
        let opt (v : Int) : Option Int := if v = 1000000 then none else some v
        ret (pure (t.subsetSliceStep (opt (intArg 0)) (opt (intArg 1)) (intArg 2)))
      | 12 => (t, showGroups (t.groupBy fun r => Tab.cutLabel (args.map fun (e : Int) => ((e : Int) : Rat)) ((r.1 : Nat) : Rat)))
      | _ => (t, "bad-op")
    runTable t' rest' (out :: acc)
  | _ => (("bad-args") :: acc).reverse

def opTable (a : Array Rat) : String :=
  let n := (i a 0).toNat
  " ; ".intercalate (runTable (tabOfTags (List.range n)) (a.toList.drop 1) [])

/-- `frame code...` : feature-name codes (`< 6` = a coordinate name, otherwise `f<code>`) → column
names written by `to_dataframe`, then the feature names read back by `from_dataframe`. -/
def opFrame (a : Array Rat) : String :=
  let nameOf (c : Nat) : String := if c < 6 then csvColumns.getD c "?" else s!"f{c}"
  let feats : Frame Nat := (a.toList.map fun q => (nameOf q.floor.toNat, [q.floor.toNat]))
  let coords : List (List Nat) := [[0], [1], [2], [3], [4], [5]]
  match toFrame coords feats with
  | .error e => "err:" ++ toString e
  | .ok df =>
    match fromFrame df with
    | .error e => "err:" ++ toString e
    | .ok (_, fs) => ",".intercalate (df.map (·.1)) ++ " | " ++ ",".intercalate (fs.map (·.1))

def v3At (a : Array Rat) (k : Nat) : V3 := ⟨a[k]!, a[k+1]!, a[k+2]!⟩
def m3At (a : Array Rat) (k : Nat) : M3 := ⟨v3At a k, v3At a (k+3), v3At a (k+6)⟩
def showPose (m : Pose) : String :=
  " ".intercalate ([m.p.z, m.p.y, m.p.x, m.R.r0.z, m.R.r0.y, m.R.r0.x, m.R.r1.z, m.R.r1.y, m.R.r1.x,
    m.R.r2.z, m.R.r2.y, m.R.r2.x].map Canon.canon)

/-- `pose kind p(3) R(9) v(3) Q(9) scale`: kind 0 = translate_internal v, 1 = rotate_by_rotvec_internal Q,
2 = linear_transform(v, Q), 3 = _post_align at `scale` with pixel shift v and rotation Q,
4 = rotate_by Q (world), 5 = translate v (world) -/
def opPose (a : Array Rat) : String :=
  let m : Pose := ⟨v3At a 1, m3At a 4⟩
  let v := v3At a 13
  let Q := m3At a 16
  let r := match (i a 0) with
    | 0 => m.translateInternal v
    | 1 => m.rotateInternal Q
    | 2 => m.linearTransform v Q
    | 3 => Pose.postAlign a[25]! m v Q
    | 4 => m.rotateBy Q
    | _ => m.translate v
  showPose r

def showV3 (v : V3) : String := " ".intercalate ([v.z, v.y, v.x].map Canon.canon)
def showM3 (m : M3) : String := " ".intercalate [showV3 m.r0, showV3 m.r1, showV3 m.r2]

/-- `poseHist p(3) R(9) [kind v(3) Q(9)]*` : a history of rotate / translate calls -/
partial def runPose (m : Pose) (a : Array Rat) (k : Nat) : Pose :=
  if k + 13 > a.size then m
  else
    let v := v3At a (k + 1)
    let Q := m3At a (k + 4)
    let m' := match (a[k]!).floor with
      | 0 => m.translateInternal v
      | 1 => m.rotateInternal Q
      | 4 => m.rotateBy Q
      | _ => m.translate v
    runPose m' a (k + 13)

def opPoseHist (a : Array Rat) : String := showPose (runPose ⟨v3At a 0, m3At a 3⟩ a 12)

def opAxes (a : Array Rat) : String :=
  let m : Pose := ⟨⟨0, 0, 0⟩, m3At a 0⟩
  " ".intercalate [showV3 m.axisZ, showV3 m.axisY, showV3 m.axisX]

def opFromAxes (a : Array Rat) : String :=
  let u := v3At a 1
  let w := v3At a 4
  showM3 (match (a[0]!).floor with
    | 0 => fromAxesZY u w
    | 1 => fromAxesYX u w
    | _ => fromAxesZX u w)

/-- `localCoord p(3) R(9) s0 s1 s2 scale k(3)` -/
def opLocalCoord (a : Array Rat) : String :=
  showV3 (localCoord ⟨v3At a 0, m3At a 3⟩ (i a 12, i a 13, i a 14) a[15]! (v3At a 16))

/-- `affine p(3) R(9) src(3) dst(3) o(3) inverse` -/
def opAffine (a : Array Rat) : String :=
  showV3 (affineApply ⟨v3At a 0, m3At a 3⟩ (v3At a 12) (v3At a 15) (v3At a 18) (a[21]! ≠ 0))

def opEulerTr (a : Array Rat) : String :=
  " ".intercalate ((translateEuler (a.toList.map fun q => Char.ofNat q.floor.toNat)).map fun c => toString c.toNat)

/-! `batch op nargs args ...` : a history on a BatchLoader. A molecule is `(image id, tag)`.
ops: 1 add id cnt (explicit id) | 2 addAuto cnt | 3 sort mul modp desc | 4 filter a b | 5 head k | 6 tail k
| 7 group g (observation) | 8 slice lo hi. After every op: rows `id:tag`, then the task order. -/
abbrev BRow := Int × Nat

def showRows (r : List BRow) : String := ",".intercalate (r.map fun q => s!"{q.1}:{q.2}")

def showBatch (r : List BRow) (imgs : List Int) : String :=
  let tasks := tasksAsCode (fun (q : BRow) => q.1) r
  "rows=" ++ showRows r ++ " tasks=" ++ ",".intercalate (tasks.map fun t =>
    match t with | some q => s!"{q.1}:{q.2}" | none => "none") ++ " images=" ++ ",".intercalate (imgs.map toString)

partial def runBatch (r : List BRow) (imgs : List Int) (next : Nat) (a : List Rat) (acc : List String) : List String :=
  match a with
  | [] => acc.reverse
  | op :: nargs :: rest =>
    let k := nargs.floor.toNat
    let args := (rest.take k).map (·.floor)
    let rest' := rest.drop k
    let natArg (j : Nat) : Nat := (args.getD j 0).toNat
    let intArg (j : Nat) : Int := args.getD j 0
    let fresh (cnt : Nat) (id : Int) : List BRow := (List.range cnt).map fun t => (id, next + t)
    let prune (r' : List BRow) : List Int := (pruneImages (imgs.map fun x => (x, 0)) (r'.map (·.1))).map (·.1)
    let rowOp (f : List BRow → List BRow) : List BRow × List Int × Nat × String :=
      let r' := f r
      (r', prune r', next, showBatch r' (prune r'))
    let (r', imgs', next', out) : List BRow × List Int × Nat × String :=
      match op.floor with
      | 1 =>
        let id := intArg 0
        let r' := r ++ fresh (natArg 1) id
        let imgs' := if imgs.contains id then imgs else imgs ++ [id]
        (r', imgs', next + natArg 1, showBatch r' imgs')
      | 2 =>
        let id := freshId imgs (imgs.length + 1) (imgs.length : Nat)
        let r' := r ++ fresh (natArg 0) id
        (r', imgs ++ [id], next + natArg 0, showBatch r' (imgs ++ [id]))
      | 3 => rowOp fun x => if intArg 2 != 0 then Tab.sortBy (fun q => -(((q.2 : Int) * intArg 0) % intArg 1)) x
                            else Tab.sortBy (fun q => ((q.2 : Int) * intArg 0) % intArg 1) x
      | 4 => rowOp fun x => x.filter fun q => ((q.2 : Int) % intArg 0) == intArg 1
      | 5 => rowOp fun x => x.take (natArg 0)
      | 6 => rowOp fun x => x.drop (x.length - natArg 0)
      | 7 => (r, imgs, next, "G " ++ " ".intercalate ((Tab.groupRows (fun (q : BRow) => ((q.2 : Int) % intArg 0)) r).map
                fun g => s!"{g.1}=" ++ showRows g.2))
      | 8 => rowOp fun x => Tab.sliceSel (intArg 0) (intArg 1) x
      | _ => (r, imgs, next, "bad-op")
    runBatch r' imgs' next' rest' (out :: acc)
  | _ => ("bad-args" :: acc).reverse

def opBatch (a : Array Rat) : String := " ; ".intercalate (runBatch [] [] 0 a.toList [])

/-- `cache nthreads sched...` : all threads call `get` with their own Backend instance of module 0 on a
cache holding one entry written by `__init__`; prints each thread's outcome and the dict size. -/
def opCache (a : Array Rat) : String :=
  let n := (i a 0).toNat
  let keys := (List.range n).map fun t => (⟨0, t + 1⟩ : BKey)
  let s := run Gen.backendEqByModule ⟨[(⟨0, 0⟩, 7)], freshThreads keys⟩ ((a.toList.drop 1).map fun q => q.floor.toNat)
  let sh (t : Thread) : String := match t.st with
    | .running _ _ => "running"
    | .returned (some _) => "ret"
    | .returned none => "none"
    | .raised => "raised"
  " ".intercalate (s.threads.map sh) ++ s!" size={s.dict.length}"

/-- `ldsShape kind m0 m1 m2 upsample N0 N1 N2` → landscape shape (kind 0 zncc, 1 ncc, 2 pcc, 3 fsc) -/
def opLdsShape (a : Array Rat) : String :=
  let kind := i a 0
  let u := i a 4
  let need := Gen.landscapeNeedUpsample u
  let pad : Int := Gen.landscapePad need
  let side (k : Nat) : Int :=
    let m := a[1 + k]! + (pad : Rat)
    let N := i a (5 + k)
    let base : Int :=
      if kind == 0 then (2 * Gen.paddingWidth m - 1) - 2 * Gen.padWidthEff1 m (2 * Gen.paddingWidth m - 1)
      else if kind == 1 then (2 * Gen.paddingWidth m - 1) - 2 * Gen.padWidthEff0 m (2 * Gen.paddingWidth m - 1)
      else if kind == 2 then (Gen.pccLandscapeBounds m m N).2.2 - (Gen.pccLandscapeBounds m m N).2.1
      else Gen.fscOutShape m
    if need then (Gen.buildMeshAxis a[1 + k]! u base).2.2.2 else base
  Canon.canon (side 0, side 1, side 2)

/-- chop a flat list into rows of `w` -/
def chop (w : Nat) : Nat → List Rat → Mat
  | 0, _ => []
  | n + 1, l => l.take w :: chop w n (l.drop w)

/-- `pcaStats nimg nf mask(nf) imgs(nimg*nf)` → column sums and centred Gram matrix of the flat stack -/
def opPcaStats (a : Array Rat) : String :=
  let n := (i a 0).toNat
  let nf := (i a 1).toNat
  let l := a.toList.drop 2
  let mask := l.take nf
  let X := flatStack mask (chop nf n (l.drop nf))
  Canon.canon (colSums nf X, (centredGram nf X).flatten)

/-- `pcaTransform n nf k mask(nf) mean(nf) comps(k*nf) imgs(n*nf)`: `PcaClassifier.transform` -/
def opPcaTransform (a : Array Rat) : String :=
  let n := (i a 0).toNat
  let nf := (i a 1).toNat
  let k := (i a 2).toNat
  let l := a.toList.drop 3
  let mask := l.take nf
  let mean := (l.drop nf).take nf
  let comps := chop nf k (l.drop (2 * nf))
  let X := flatStack mask (chop nf n (l.drop (2 * nf + k * nf)))
  Canon.canon ((transform mean comps X).flatten)

/-- `ravel Y X z y x` and `unravel Y X i` -/
def opRavel (a : Array Rat) : String := Canon.canon (ravel (i a 0) (i a 1) (i a 2) (i a 3) (i a 4))
def opUnravel (a : Array Rat) : String := Canon.canon (unravel (i a 0) (i a 1) (i a 2))

/-- `withLabel ncols nrows labelcol nlabels labels(nlabels)`: frame with columns `c0..` whose entry
`(c, r)` is `100*c + r`; the label column is called `c<labelcol>`. Prints the column names and values. -/
def opWithLabel (a : Array Rat) : String :=
  let ncols := (i a 0).toNat
  let nrows := (i a 1).toNat
  let df : Frame Int := (List.range ncols).map fun (c : Nat) =>
    (s!"c{c}", (List.range nrows).map fun (r : Nat) => Int.ofNat (100 * c + r))
  let labels := ((a.toList.drop 4).take (i a 3).toNat).map (·.floor)
  match withColumn s!"c{i a 2}" labels df with
  | .ok out => " ".intercalate (out.map fun c => c.1 ++ "=" ++ ",".intercalate (c.2.map toString))
  | .error e => "err:" ++ toString e

/-! pipeline expressions: prefix encoding
`PE ::= 0 k | 1 op a b | 2 op a s | 3 op s a | 4 a | 5 c a`,
`CE ::= 0 k | 1 op a b | 2 op a p | 3 op a s | 4 op s a | 5 a | 6 a b`, `op` = index into
`add sub mul div eq ne lt le gt ge`. -/
def binOpOf (k : Int) : BinOp :=
  match k with
  | 0 => .add | 1 => .sub | 2 => .mul | 3 => .div | 4 => .eq | 5 => .ne
  | 6 => .lt | 7 => .le | 8 => .gt | _ => .ge

mutual
  partial def parsePE (l : List Rat) : Option (PE × List Rat) :=
    match l with
    | 0 :: k :: r => some (.base k.floor.toNat, r)
    | 1 :: op :: r => do
      let (a, r) ← parsePE r
      let (b, r) ← parsePE r
      pure (.bin (binOpOf op.floor) a b, r)
    | 2 :: op :: r => do
      let (a, r) ← parsePE r
      match r with
      | s :: r => pure (.binS (binOpOf op.floor) a s, r)
      | [] => none
    | 3 :: op :: s :: r => do
      let (a, r) ← parsePE r
      pure (.binR (binOpOf op.floor) s a, r)
    | 4 :: r => do
      let (a, r) ← parsePE r
      pure (.neg a, r)
    | 5 :: r => do
      let (c, r) ← parseCE r
      let (a, r) ← parsePE r
      pure (.app c a, r)
    | _ => none
  partial def parseCE (l : List Rat) : Option (CE × List Rat) :=
    match l with
    | 0 :: k :: r => some (.base k.floor.toNat, r)
    | 1 :: op :: r => do
      let (a, r) ← parseCE r
      let (b, r) ← parseCE r
      pure (.bin (binOpOf op.floor) a b, r)
    | 2 :: op :: r => do
      let (a, r) ← parseCE r
      let (p, r) ← parsePE r
      pure (.binP (binOpOf op.floor) a p, r)
    | 3 :: op :: r => do
      let (a, r) ← parseCE r
      match r with
      | s :: r => pure (.binS (binOpOf op.floor) a s, r)
      | [] => none
    | 4 :: op :: s :: r => do
      let (a, r) ← parseCE r
      pure (.binR (binOpOf op.floor) s a, r)
    | 5 :: r => do
      let (a, r) ← parseCE r
      pure (.neg a, r)
    | 6 :: r => do
      let (a, r) ← parseCE r
      let (b, r) ← parseCE r
      pure (.comp a b, r)
    | _ => none
end

/-- the primitive providers / converters of the correspondence harness (2x2x2 images, C order) -/
def primP (k : Nat) : Prov :=
  match k with
  | 0 => ⟨fun _ => (List.range 8).map fun i => ((i : Nat) : Rat) + 1⟩
  | 1 => ⟨fun σ => (List.range 8).map fun i => (((i % 3 : Nat) : Rat) + 1) * σ⟩
  | 2 => ⟨fun _ => (List.range 8).map fun i => ((2 ^ (i % 4) : Nat) : Rat)⟩
  | _ => ⟨fun _ => (List.range 8).map fun i => 4 - ((i : Nat) : Rat)⟩

def primC (k : Nat) : Conv :=
  match k with
  | 0 => ⟨fun x σ => x.map fun v => 2 * v + σ⟩
  | 1 => ⟨fun x _ => x.reverse⟩
  | 2 => ⟨fun x _ => x.map fun v => v * v⟩
  | _ => ⟨fun x _ => x.drop 1 ++ x.take 1⟩

/-- `pipeP scale tokens…` → the image the built provider yields at `scale` -/
def opPipeP (a : Array Rat) : String :=
  match parsePE (a.toList.drop 1) with
  | some (e, []) => Canon.canon ((buildP primP primC e).f a[0]!)
  | _ => "err:parse"

/-- `pipeC scale tokens…` → the built converter applied to the image `1..8` -/
def opPipeC (a : Array Rat) : String :=
  match parseCE (a.toList.drop 1) with
  | some (e, []) => Canon.canon ((buildC primP primC e).f ((List.range 8).map fun i => ((i : Nat) : Rat) - 3) a[0]!)
  | _ => "err:parse"

/-- `load1d c s order N v1 … vN`: one subtomogram along one axis (identity orientation, grid-coincident centre) -/
def opLoad1d (a : Array Rat) : String :=
  let N := (i a 3).toNat
  match loadAxis ((a.toList.drop 4).take N) a[0]! (i a 1) (i a 2) with
  | .ok r => " ".intercalate (r.map Canon.canon)
  | .error e => "err:" ++ toString e

/-- `sim1d scale N nmol (p n v1 … vn)*`: `TomogramSimulator._simulate` along one axis, grid-coincident poses -/
def opSim1d (a : Array Rat) : String :=
  let scale := a[0]!
  let N := (i a 1).toNat
  let nmol := (i a 2).toNat
  let rec mols : Nat → List Rat → List (Rat × List Rat)
    | 0, _ => []
    | k + 1, l =>
      let n := (l.getD 1 0).floor.toNat
      (l.headD 0, (l.drop 2).take n) :: mols k (l.drop (2 + n))
  match simulate1d scale N (mols nmol (a.toList.drop 3)) with
  | .ok r => " ".intercalate (r.map Canon.canon)
  | .error e => "err:" ++ toString e

/-- `pick3 scale d0 d1 d2 x0 x1 x2 n0 cs0… n1 cs1… n2 cs2…`: how many blocks keep the position
(product over the axes) and where the keeping block reports it. -/
def opPick3 (a : Array Rat) : String :=
  let scale := a[0]!
  let ds := [(i a 1).toNat, (i a 2).toNat, (i a 3).toNat]
  let xs := [a[4]!, a[5]!, a[6]!]
  let rest := a.toList.drop 7
  let n0 := (rest.headD 0).floor.toNat
  let cs0 := ((rest.drop 1).take n0).map (·.floor.toNat)
  let rest1 := rest.drop (1 + n0)
  let n1 := (rest1.headD 0).floor.toNat
  let cs1 := ((rest1.drop 1).take n1).map (·.floor.toNat)
  let rest2 := rest1.drop (1 + n1)
  let n2 := (rest2.headD 0).floor.toNat
  let cs2 := ((rest2.drop 1).take n2).map (·.floor.toNat)
  let css := [cs0, cs1, cs2]
  let per := (List.range 3).map fun ax =>
    let cs := css.getD ax []
    let d := Nat.min (ds.getD ax 0) cs.sum         -- depth is clipped to the image size
    let x := xs.getD ax 0
    let ks := blocksKeeping cs d x
    (ks.length, ks.map fun j => reportGlobal cs d j (x - (chunkStart cs j : Rat) + (d : Rat)) scale)
  let count := per.foldl (fun acc p => acc * p.1) 1
  Canon.canon (count, per.map (·.2))

def dispatch (name : String) (a : Array Rat) : Option String :=
  match name with
  | "prepAffine" => some (flat (opPrepAffine a))
  | "prepAffineCS" => some (flat (opPrepAffineCS a))
  | "searchLoader" => some (Canon.canon (searchLoader (i a 0) (i a 1) (a.toList.drop 2)))
  | "searchGroup" => some (Canon.canon (searchGroup (i a 0) (i a 1) (a.toList.drop 2)))
  | "wedge_tilt" => some (opWedge maskTilt Gen.wedgeScaleBeforeRotTilt Gen.wedgeScaleIsDivTilt
      Gen.indicesOffsetTilt Gen.indicesUsesFftshiftTilt a)
  | "wedge_backend" => some (opWedge maskBackend Gen.wedgeScaleBeforeRotBackend Gen.wedgeScaleIsDivBackend
      Gen.indicesOffsetBackend Gen.indicesUsesFftshiftBackend a)
  | "wedge_utils" => some (opWedge maskUtils Gen.wedgeScaleBeforeRotUtils Gen.wedgeScaleIsDivUtils
      Gen.indicesOffsetUtils Gen.indicesUsesFftshiftUtils a)
  | "bw_utils" => some (opBw bwUtils a)
  | "bw_backend" => some (opBw bwBackend a)
  | "lpShape_utils" => some (opLpShape bwUtils a)
  | "lpShape_backend" => some (opLpShape bwBackend a)
  | "lpGuard_utils" => some (Canon.canon (Gen.lpGuardUtils_lp a[0]! a[1]!))
  | "lpGuard_backend" => some (Canon.canon (Gen.lpGuardBackend_lp a[0]! a[1]!))
  | "mesh" => some (opMesh a)
  | "pccCrop" => some (opPccCrop a)
  | "znccShape" => some (opZnccShape a)
  | "landscape" => some (opLandscape a)
  | "score" => some (opScore a)
  | "split" => some (opSplit a)
  | "fscLabels" => some (opFscLabels a)
  | "bin" => some (opBin a)
  | "binaxis" => some (opBinAxis a)
  | "imgtab" => some (opImgTab a)
  | "avgsplit" => some (opAvgSplit a)
  | "table" => some (opTable a)
  | "frame" => some (opFrame a)
  | "pose" => some (opPose a)
  | "poseHist" => some (opPoseHist a)
  | "axes" => some (opAxes a)
  | "fromAxes" => some (opFromAxes a)
  | "localCoord" => some (opLocalCoord a)
  | "affine" => some (opAffine a)
  | "eulerTr" => some (opEulerTr a)
  | "batch" => some (opBatch a)
  | "cache" => some (opCache a)
  | "ldsShape" => some (opLdsShape a)
  | "pcaStats" => some (opPcaStats a)
  | "pcaTransform" => some (opPcaTransform a)
  | "ravel" => some (opRavel a)
  | "unravel" => some (opUnravel a)
  | "withLabel" => some (opWithLabel a)
  | "pipeP" => some (opPipeP a)
  | "pipeC" => some (opPipeC a)
  | "pick3" => some (opPick3 a)
  | "sim1d" => some (opSim1d a)
  | "load1d" => some (opLoad1d a)
  | _ => none

end Model
