import AcryoVerif.Py
import AcryoVerif.Model.Crop
import AcryoVerif.Model.Search
import AcryoVerif.Model.Wedge

/-! Dispatch of hand-written model operations for the line-protocol driver. -/
namespace Model

open Py

private def i (a : Array Rat) (k : Nat) : Int := (a[k]!).floor

/-- `prepAffine c0 c1 c2 s0 s1 s2 order N0 N1 N2` -/
def opPrepAffine (a : Array Rat) : PyM (List Int × List Rat) := do
  let mut lens : List Int := []
  let mut trs : List Rat := []
  for ax in [0, 1, 2] do
    let w ← cropAxis a[ax]! (i a (3 + ax)) (i a 6) (i a (7 + ax))
    let (l, t) := w.observe
    lens := lens ++ [l]
    trs := trs ++ [t]
  return (lens, trs)

/-- `prepAffineCS c0 c1 c2 maxLen s0 s1 s2 order N0 N1 N2` -/
def opPrepAffineCS (a : Array Rat) : PyM (List Int × List Rat) := do
  let mut lens : List Int := []
  let mut trs : List Rat := []
  for ax in [0, 1, 2] do
    let w ← cropAxisCS a[ax]! a[3]! (i a (4 + ax)) (i a 7) (i a (8 + ax))
    let (l, t) := w.observe
    lens := lens ++ [l]
    trs := trs ++ [t]
  return (lens, trs)

def flat (r : PyM (List Int × List Rat)) : String :=
  match r with
  | .ok (l, t) => " ".intercalate (l.map Canon.canon ++ t.map Canon.canon)
  | .error e => "err:" ++ toString e

/-- `wedge_* N0 N1 N2 R(9, row major) n0(3) n1(3)` → one character per bin in C order; bins whose
exact sign product is within `1e-6` of zero are printed as `x` (floating point decides them). -/
def opWedge (f : M3 → Int × Int × Int → V3 → V3 → Int × Int × Int → Bool)
    (sb sd : Bool) (off : Int → Int) (sh : Bool) (a : Array Rat) : String :=
  let N : Int × Int × Int := (i a 0, i a 1, i a 2)
  let R : M3 := ⟨⟨a[3]!, a[4]!, a[5]!⟩, ⟨a[6]!, a[7]!, a[8]!⟩, ⟨a[9]!, a[10]!, a[11]!⟩⟩
  let n0 : V3 := ⟨a[12]!, a[13]!, a[14]!⟩
  let n1 : V3 := ⟨a[15]!, a[16]!, a[17]!⟩
  Id.run do
    let mut s := ""
    for z in [0:N.1.toNat] do
      for y in [0:N.2.1.toNat] do
        for x in [0:N.2.2.toNat] do
          let idx : Int × Int × Int := ((z : Int), (y : Int), (x : Int))
          let v := idxVec off sh N idx
          let p := (effNormal sb sd R (shapeVec N) n0).dot v * (effNormal sb sd R (shapeVec N) n1).dot v
          let scale : Rat := if sd then 1 else ((N.1 * N.1 + N.2.1 * N.2.1 + N.2.2 * N.2.2 : Int) : Rat) ^ 2
          if Py.rabs p < scale / 1000000 then s := s ++ "x"
          else s := s ++ (if f R N n0 n1 idx then "1" else "0")
    return s

def dispatch (name : String) (a : Array Rat) : Option String :=
  match name with
  | "prepAffine" => some (flat (opPrepAffine a))
  | "prepAffineCS" => some (flat (opPrepAffineCS a))
  | "searchLoader" => some (Canon.canon (searchLoader (i a 0) (i a 1) (a.toList.drop 2)))
  | "searchGroup" => some (Canon.canon (searchGroup (i a 0) (i a 1) (a.toList.drop 2)))
  | "wedge_tilt" => some (opWedge maskTilt Gen.wedgeScaleBeforeRotTilt Gen.wedgeScaleIsDivTilt
      Gen.indicesOffsetTilt Gen.indicesUsesFftshiftTilt a)
  | "wedge_backend" => some (opWedge maskBackend Gen.wedgeScaleBeforeRotBackend Gen.wedgeScaleIsDivBackend
      Gen.indicesOffsetBackend Gen.indicesUsesFftshiftBackend a)
  | "wedge_utils" => some (opWedge maskUtils Gen.wedgeScaleBeforeRotUtils Gen.wedgeScaleIsDivUtils
      Gen.indicesOffsetUtils Gen.indicesUsesFftshiftUtils a)
  | _ => none

end Model
