import AcryoVerif.Py
import AcryoVerif.Model.Crop
import AcryoVerif.Model.Search

/-! Dispatch of hand-written model operations for the line-protocol driver. -/
namespace Model

open Py

private def i (a : Array Rat) (k : Nat) : Int := (a[k]!).floor

/-- `prepAffine c0 c1 c2 s0 s1 s2 order N0 N1 N2` -/
def opPrepAffine (a : Array Rat) : PyM (List Int × List Rat) := do
  let mut lens : List Int := []
  let mut trs : List Rat := []
  for ax in [0, 1, 2] do
    let w ← cropAxis a[ax]! (i a (3 + ax)) (i a 6) (i a (7 + ax))
    let (l, t) := w.observe
    lens := lens ++ [l]
    trs := trs ++ [t]
  return (lens, trs)

/-- `prepAffineCS c0 c1 c2 maxLen s0 s1 s2 order N0 N1 N2` -/
def opPrepAffineCS (a : Array Rat) : PyM (List Int × List Rat) := do
  let mut lens : List Int := []
  let mut trs : List Rat := []
  for ax in [0, 1, 2] do
    let w ← cropAxisCS a[ax]! a[3]! (i a (4 + ax)) (i a 7) (i a (8 + ax))
    let (l, t) := w.observe
    lens := lens ++ [l]
    trs := trs ++ [t]
  return (lens, trs)

def flat (r : PyM (List Int × List Rat)) : String :=
  match r with
  | .ok (l, t) => " ".intercalate (l.map Canon.canon ++ t.map Canon.canon)
  | .error e => "err:" ++ toString e

def dispatch (name : String) (a : Array Rat) : Option String :=
  match name with
  | "prepAffine" => some (flat (opPrepAffine a))
  | "prepAffineCS" => some (flat (opPrepAffineCS a))
  | "searchLoader" => some (Canon.canon (searchLoader (i a 0) (i a 1) (a.toList.drop 2)))
  | "searchGroup" => some (Canon.canon (searchGroup (i a 0) (i a 1) (a.toList.drop 2)))
  | _ => none

end Model
