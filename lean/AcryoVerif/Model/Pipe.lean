import AcryoVerif.Py
import AcryoVerif.Gen.Pipe

/-!
Model of `acryo.pipe`: image providers (`scale → image`) and converters (`image → scale → image`) as
closures, the operator methods of `ImageProvider` / `ImageConverter` built from the lambda bodies
translated from `_classes.py` (`Gen.pP_*`, `Gen.pS_*`, `Gen.cC_*`, `Gen.cP_*`, `Gen.cS_*`, `Gen.pR_*`,
`Gen.cR_*`), composition, and a deep embedding of pipeline expressions with

* `buildP` / `buildC`: the object that evaluating the Python expression constructs, operator method by
  operator method (including Python's rule that `s < p` with a scalar on the left is evaluated as
  `p > s`, and that `s + p`, `s * p` go through `__radd__` / `__rmul__` = `p + s`, `p * s`);
* `denP` / `denC`: the meaning the property assigns to the expression — nested function application and
  voxel-wise arithmetic / comparison.

Images are flat voxel lists of equal length (numpy raises on a shape mismatch; not modelled).
-/
namespace Model

open Py

abbrev PImg := List Rat

def b2r (b : Bool) : Rat := if b then 1 else 0

inductive BinOp
  | add | sub | mul | div | eq | ne | lt | le | gt | ge
  deriving DecidableEq, Repr

/-- the voxel operation meant by the operator -/
def BinOp.spec : BinOp → Rat → Rat → Rat
  | .add, a, b => a + b
  | .sub, a, b => a - b
  | .mul, a, b => a * b
  | .div, a, b => a / b
  | .eq, a, b => b2r (decide (a = b))
  | .ne, a, b => b2r (decide (a ≠ b))
  | .lt, a, b => b2r (decide (a < b))
  | .le, a, b => b2r (decide (a ≤ b))
  | .gt, a, b => b2r (decide (a > b))
  | .ge, a, b => b2r (decide (a ≥ b))

/-- provider ∘ provider lambda bodies of `ImageProvider.__add__ …` -/
def BinOp.pP : BinOp → Rat → Rat → Rat
  | .add, a, b => Gen.pP_add a b
  | .sub, a, b => Gen.pP_sub a b
  | .mul, a, b => Gen.pP_mul a b
  | .div, a, b => Gen.pP_div a b
  | .eq, a, b => b2r (Gen.pP_eq a b)
  | .ne, a, b => b2r (Gen.pP_ne a b)
  | .lt, a, b => b2r (Gen.pP_lt a b)
  | .le, a, b => b2r (Gen.pP_le a b)
  | .gt, a, b => b2r (Gen.pP_gt a b)
  | .ge, a, b => b2r (Gen.pP_ge a b)

/-- provider ∘ scalar -/
def BinOp.pS : BinOp → Rat → Rat → Rat
  | .add, a, b => Gen.pS_add a b
  | .sub, a, b => Gen.pS_sub a b
  | .mul, a, b => Gen.pS_mul a b
  | .div, a, b => Gen.pS_div a b
  | .eq, a, b => b2r (Gen.pS_eq a b)
  | .ne, a, b => b2r (Gen.pS_ne a b)
  | .lt, a, b => b2r (Gen.pS_lt a b)
  | .le, a, b => b2r (Gen.pS_le a b)
  | .gt, a, b => b2r (Gen.pS_gt a b)
  | .ge, a, b => b2r (Gen.pS_ge a b)

def BinOp.cC : BinOp → Rat → Rat → Rat
  | .add, a, b => Gen.cC_add a b
  | .sub, a, b => Gen.cC_sub a b
  | .mul, a, b => Gen.cC_mul a b
  | .div, a, b => Gen.cC_div a b
  | .eq, a, b => b2r (Gen.cC_eq a b)
  | .ne, a, b => b2r (Gen.cC_ne a b)
  | .lt, a, b => b2r (Gen.cC_lt a b)
  | .le, a, b => b2r (Gen.cC_le a b)
  | .gt, a, b => b2r (Gen.cC_gt a b)
  | .ge, a, b => b2r (Gen.cC_ge a b)

def BinOp.cP : BinOp → Rat → Rat → Rat
  | .add, a, b => Gen.cP_add a b
  | .sub, a, b => Gen.cP_sub a b
  | .mul, a, b => Gen.cP_mul a b
  | .div, a, b => Gen.cP_div a b
  | .eq, a, b => b2r (Gen.cP_eq a b)
  | .ne, a, b => b2r (Gen.cP_ne a b)
  | .lt, a, b => b2r (Gen.cP_lt a b)
  | .le, a, b => b2r (Gen.cP_le a b)
  | .gt, a, b => b2r (Gen.cP_gt a b)
  | .ge, a, b => b2r (Gen.cP_ge a b)

def BinOp.cS : BinOp → Rat → Rat → Rat
  | .add, a, b => Gen.cS_add a b
  | .sub, a, b => Gen.cS_sub a b
  | .mul, a, b => Gen.cS_mul a b
  | .div, a, b => Gen.cS_div a b
  | .eq, a, b => b2r (Gen.cS_eq a b)
  | .ne, a, b => b2r (Gen.cS_ne a b)
  | .lt, a, b => b2r (Gen.cS_lt a b)
  | .le, a, b => b2r (Gen.cS_le a b)
  | .gt, a, b => b2r (Gen.cS_gt a b)
  | .ge, a, b => b2r (Gen.cS_ge a b)

/-- Python has no reflected comparison methods: `s < p` is evaluated as `p > s`. -/
def BinOp.mirror : BinOp → BinOp
  | .lt => .gt
  | .le => .ge
  | .gt => .lt
  | .ge => .le
  | o => o

/-- scalar on the left of a provider: `__radd__`/`__rmul__` forward to `self + other`/`self * other`,
`__rsub__`/`__rtruediv__` have their own lambdas, comparisons are mirrored. First argument: the voxel,
second: the scalar. -/
def BinOp.pR : BinOp → Rat → Rat → Rat
  | .add, a, s => Gen.pS_add a s
  | .mul, a, s => Gen.pS_mul a s
  | .sub, a, s => Gen.pR_sub a s
  | .div, a, s => Gen.pR_div a s
  | o, a, s => o.mirror.pS a s

def BinOp.cR : BinOp → Rat → Rat → Rat
  | .add, a, s => Gen.cS_add a s
  | .mul, a, s => Gen.cS_mul a s
  | .sub, a, s => Gen.cR_sub a s
  | .div, a, s => Gen.cR_div a s
  | o, a, s => o.mirror.cS a s

structure Prov where
  f : Rat → PImg

structure Conv where
  f : PImg → Rat → PImg

def Prov.bin (op : BinOp) (a b : Prov) : Prov := ⟨fun σ => List.zipWith op.pP (a.f σ) (b.f σ)⟩
def Prov.binS (op : BinOp) (a : Prov) (s : Rat) : Prov := ⟨fun σ => (a.f σ).map (op.pS · s)⟩
def Prov.binR (op : BinOp) (s : Rat) (a : Prov) : Prov := ⟨fun σ => (a.f σ).map (op.pR · s)⟩
def Prov.neg (a : Prov) : Prov := ⟨fun σ => (a.f σ).map Gen.pNeg⟩

def Conv.bin (op : BinOp) (a b : Conv) : Conv := ⟨fun x σ => List.zipWith op.cC (a.f x σ) (b.f x σ)⟩
def Conv.binP (op : BinOp) (a : Conv) (p : Prov) : Conv := ⟨fun x σ => List.zipWith op.cP (a.f x σ) (p.f σ)⟩
def Conv.binS (op : BinOp) (a : Conv) (s : Rat) : Conv := ⟨fun x σ => (a.f x σ).map (op.cS · s)⟩
def Conv.binR (op : BinOp) (s : Rat) (a : Conv) : Conv := ⟨fun x σ => (a.f x σ).map (op.cR · s)⟩
def Conv.neg (a : Conv) : Conv := ⟨fun x σ => (a.f x σ).map Gen.cNeg⟩

/-- `ImageConverter.compose` with a converter: `lambda x, scale: self(other(x, scale), scale)` -/
def Conv.compose (c d : Conv) : Conv := ⟨fun x σ => c.f (d.f x σ) σ⟩
/-- … with a provider: `lambda scale: self(other(scale), scale)` -/
def Conv.apply (c : Conv) (p : Prov) : Prov := ⟨fun σ => c.f (p.f σ) σ⟩

/-- `provider_function(fn)(*args)` = `ImageProvider(lambda scale: fn(scale, *args))` -/
def curryP {α : Type} (fn : Rat → α → PImg) (args : α) : Prov := ⟨fun σ => fn σ args⟩
/-- `converter_function(fn)(*args)` = `ImageConverter(lambda img, scale: fn(img, scale, *args))` -/
def curryC {α : Type} (fn : PImg → Rat → α → PImg) (args : α) : Conv := ⟨fun x σ => fn x σ args⟩

mutual
  inductive PE
    | base (k : Nat)
    | bin (op : BinOp) (a b : PE)
    | binS (op : BinOp) (a : PE) (s : Rat)
    | binR (op : BinOp) (s : Rat) (a : PE)
    | neg (a : PE)
    | app (c : CE) (a : PE)
  inductive CE
    | base (k : Nat)
    | bin (op : BinOp) (a b : CE)
    | binP (op : BinOp) (a : CE) (p : PE)
    | binS (op : BinOp) (a : CE) (s : Rat)
    | binR (op : BinOp) (s : Rat) (a : CE)
    | neg (a : CE)
    | comp (a b : CE)
end

mutual
  /-- the object Python constructs for the expression -/
  def buildP (pe : Nat → Prov) (ce : Nat → Conv) : PE → Prov
    | .base k => pe k
    | .bin op a b => (buildP pe ce a).bin op (buildP pe ce b)
    | .binS op a s => (buildP pe ce a).binS op s
    | .binR op s a => (buildP pe ce a).binR op s
    | .neg a => (buildP pe ce a).neg
    | .app c a => (buildC pe ce c).apply (buildP pe ce a)
  def buildC (pe : Nat → Prov) (ce : Nat → Conv) : CE → Conv
    | .base k => ce k
    | .bin op a b => (buildC pe ce a).bin op (buildC pe ce b)
    | .binP op a p => (buildC pe ce a).binP op (buildP pe ce p)
    | .binS op a s => (buildC pe ce a).binS op s
    | .binR op s a => (buildC pe ce a).binR op s
    | .neg a => (buildC pe ce a).neg
    | .comp a b => (buildC pe ce a).compose (buildC pe ce b)
end

mutual
  /-- what the expression means: nested application, voxel-wise operators -/
  def denP (pe : Nat → Prov) (ce : Nat → Conv) : PE → Rat → PImg
    | .base k, σ => (pe k).f σ
    | .bin op a b, σ => List.zipWith op.spec (denP pe ce a σ) (denP pe ce b σ)
    | .binS op a s, σ => (denP pe ce a σ).map (fun v => op.spec v s)
    | .binR op s a, σ => (denP pe ce a σ).map (fun v => op.spec s v)
    | .neg a, σ => (denP pe ce a σ).map (fun v => -v)
    | .app c a, σ => denC pe ce c (denP pe ce a σ) σ
  def denC (pe : Nat → Prov) (ce : Nat → Conv) : CE → PImg → Rat → PImg
    | .base k, x, σ => (ce k).f x σ
    | .bin op a b, x, σ => List.zipWith op.spec (denC pe ce a x σ) (denC pe ce b x σ)
    | .binP op a p, x, σ => List.zipWith op.spec (denC pe ce a x σ) (denP pe ce p σ)
    | .binS op a s, x, σ => (denC pe ce a x σ).map (fun v => op.spec v s)
    | .binR op s a, x, σ => (denC pe ce a x σ).map (fun v => op.spec s v)
    | .neg a, x, σ => (denC pe ce a x σ).map (fun v => -v)
    | .comp a b, x, σ => denC pe ce a (denC pe ce b x σ) σ
end

end Model
