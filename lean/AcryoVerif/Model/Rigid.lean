import AcryoVerif.Py
import AcryoVerif.Gen.Rigid
import AcryoVerif.Model.Pose

/-!
Model of the rigid-motion conventions of `Molecules` (all vectors in `(z, y, x)` order): the axes of
a molecule are the images of the unit vectors under its rotation (`Gen.axesAreImagesOfUnitVectors`),
`cross` is the negated numpy cross product (`Gen.crossIsNegatedNumpyCross`), `from_axes` completes
the triad with `cross` and builds the rotation matrix with columns `z, y, x`
(`Gen.fromAxesCompletesTriad`, `Gen.axesToRotatorBuildsColumns`), Euler sequences are translated by
reversing and swapping `x ↔ z` (`Gen.eulerTranslation`).
-/
namespace Model

def eZ : V3 := ⟨1, 0, 0⟩
def eY : V3 := ⟨0, 1, 0⟩
def eX : V3 := ⟨0, 0, 1⟩

def Pose.axisZ (m : Pose) : V3 := m.R.apply eZ
def Pose.axisY (m : Pose) : V3 := m.R.apply eY
def Pose.axisX (m : Pose) : V3 := m.R.apply eX

/-- `np.cross(a, b)` on the components in storage order -/
def npCross (a b : V3) : V3 :=
  ⟨a.y * b.x - a.x * b.y, a.x * b.z - a.z * b.x, a.z * b.y - a.y * b.z⟩

/-- `acryo.molecules.core.cross` -/
def crossZyx (a b : V3) : V3 := (npCross a b).neg

/-- the matrix with columns `z, y, x` -/
def ofColumns (z y x : V3) : M3 := ⟨⟨z.z, y.z, x.z⟩, ⟨z.y, y.y, x.y⟩, ⟨z.x, y.x, x.x⟩⟩

/-- `axes_to_rotator(z, y)` for an orthonormal pair (normalisation is then the identity) -/
def axesToRotator (z y : V3) : M3 := ofColumns z y (npCross y z).neg

def fromAxesZY (z y : V3) : M3 := axesToRotator z y
def fromAxesYX (y x : V3) : M3 := axesToRotator (crossZyx x y) y
def fromAxesZX (z x : V3) : M3 := axesToRotator z (crossZyx z x)

/-- `affine_matrix(src, dst)` applied to a point -/
def affineApply (m : Pose) (src dst o : V3) (inverse : Bool) : V3 :=
  dst.add ((if inverse then m.R.transpose else m.R).apply (o.sub src))

/-- `local_coordinates(shape, scale)` at voxel `k` (as rationals), with `vec_z = cross(vec_x, vec_y)` -/
def localCoord (m : Pose) (shape : Int × Int × Int) (scale : Rat) (k : V3) : V3 :=
  let c : V3 := ⟨Gen.localCoordCenter shape.1, Gen.localCoordCenter shape.2.1, Gen.localCoordCenter shape.2.2⟩
  let vx := m.axisX
  let vy := m.axisY
  let vz := crossZyx vx vy
  let i := k.sub c
  ((V3.smul i.z vz).add ((V3.smul i.y vy).add (V3.smul i.x vx))).add (V3.smul (1 / scale) m.p)

/-- `translate_euler`: reverse the sequence and swap `x ↔ z` (both cases) -/
def swapXZ (c : Char) : Char :=
  if c = 'x' then 'z' else if c = 'z' then 'x' else if c = 'X' then 'Z' else if c = 'Z' then 'X' else c

def translateEuler (s : List Char) : List Char := s.reverse.map swapXZ

end Model
