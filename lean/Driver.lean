import AcryoVerif.Gen.Dispatch
import AcryoVerif.Model.Dispatch

/-!
Line-protocol driver: `lake env lean --run Driver.lean < ops.txt`.
Each input line is `<op> <arg> <arg> ...` where every argument is a rational `n` or `n/d`.
`k:<name>` selects a generated kernel, `m:<name>` a hand-written model operation.
One output line per input line; unknown operations give `bad-op`.
-/

def parseInt? (s : String) : Option Int :=
  if s.startsWith "-" then (s.drop 1).toNat?.map (fun n => -(n : Int))
  else s.toNat?.map (fun n => (n : Int))

def parseRat? (s : String) : Option Rat :=
  match s.splitOn "/" with
  | [n] => (parseInt? n).map (fun i => (i : Rat))
  | [n, d] => do
      let i ← parseInt? n
      let j ← d.toNat?
      if j = 0 then none else some ((i : Rat) / (j : Rat))
  | _ => none

def step (line : String) : String :=
  match (line.trimAscii.toString.splitOn " ").filter (· ≠ "") with
  | [] => "bad-op"
  | op :: args =>
    match args.mapM parseRat? with
    | none => "bad-arg"
    | some rs =>
      let a := rs.toArray
      if op.startsWith "k:" then (Gen.dispatch (op.drop 2).toString a).getD "bad-op"
      else if op.startsWith "m:" then (Model.dispatch (op.drop 2).toString a).getD "bad-op"
      else "bad-op"

partial def loop (h : IO.FS.Stream) (out : IO.FS.Stream) : IO Unit := do
  let line ← h.getLine
  if line.isEmpty then return ()
  out.putStrLn (step line)
  loop h out

def main : IO Unit := do
  let out ← IO.getStdout
  loop (← IO.getStdin) out
