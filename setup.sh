#!/bin/sh
# Build the framework offline from files on disk: regenerate kernels from /repo, build every Lean module.
set -e
cd "$(dirname "$0")"
/venv/bin/python translator/gen.py
cd lean
lake build AcryoVerif AcryoVerif.AllProps
